package main

// The configuration space of C03: users, per-node attribute domains (covering
// sets), call shapes ("families"), call templates, and the mixed-radix
// decoding of a configuration index. Nothing here is sampled: a block
// (family x acting user) is the full product of its node domains.

import (
	"fmt"
	"math/bits"
	"os"
	"sort"
	"strings"
)

// user is an identity on both sides: MemIdm hands out exactly these numbers
// (checked at start), the kernel side uses them as fsuid/fsgid.
type user struct {
	Name string `json:"name"`
	Uid  int    `json:"uid"`
	Gid  int    `json:"gid"`
}

// index 0 is the administrator.
var users = []user{
	{"root", 0, 0},
	{"u1", 1001, 1001}, // group g1
	{"u2", 1002, 1001}, // group g1
	{"u3", 1003, 1002}, // group g2
}

const (
	gid1 = 1001
	gid2 = 1002
)

// node is one object of a configuration.
type node struct {
	Role string `json:"role"` // g (grandparent), p (parent), q (second parent), leaf
	Path string `json:"path"` // relative to R
	Kind string `json:"kind"` // D empty dir, N dir holding one file "c", F file "abc", E empty file, L symlink to R/tf
	Uid  int    `json:"uid"`
	Gid  int    `json:"gid"`
	Mode oct    `json:"mode"` // Unix layout, 0o7777
}

// oct is a mode / perm / umask in Unix layout, written in octal in replays.
type oct uint32

func (o oct) MarshalJSON() ([]byte, error) { return []byte(fmt.Sprintf("\"%04o\"", uint32(o))), nil }

func (o *oct) UnmarshalJSON(b []byte) error {
	var v uint32

	if _, err := fmt.Sscanf(strings.Trim(string(b), "\""), "%o", &v); err != nil {
		return err
	}

	*o = oct(v)

	return nil
}

func (n node) isDir() bool { return n.Kind == "D" || n.Kind == "N" }

func (n node) String() string {
	return fmt.Sprintf("%s[%s %s %d:%d %04o]", n.Role, n.Path, n.Kind, n.Uid, n.Gid, uint32(n.Mode))
}

// dom selects the covering set of one node.
type dom struct {
	OG      int // 0: owner/group/other relative to the actor (3); 1: + owner with foreign group (4); 2: {u1,u2,root} x {g1,g2} (6)
	Modes   int // -1 fixed (0644 / 0755); 0: 8 rwx values of the applicable class, other classes 000; 1: x other classes both 000 / both 777 (16); 2: x {000,777}^2 (32)
	Special int // 0: none; 1: none, sticky; 2: none, sticky, setgid (directories only)
}

type nodeT struct {
	Role, Path, Kind string
	Dom              dom
}

// callT is one call under test. Paths are derived from the family.
type callT struct {
	Op      string `json:"op"`
	Variant string `json:"variant,omitempty"` // signature class: flag set / perm / chown form / size
	Flag    int    `json:"flag,omitempty"`
	Perm    oct    `json:"perm"`           // Unix layout
	Umask   oct    `json:"umask"`          // umask in force on both sides
	Form    string `json:"form,omitempty"` // chown form, resolved against the actor
	Size    int64  `json:"size,omitempty"` // Truncate
	Sub     string `json:"sub,omitempty"`  // operand is leaf + "/" + Sub (MkdirAll two levels)
	Dest    string `json:"dest,omitempty"` // relative path of the second operand (Rename/Link)
	Up      bool   `json:"up,omitempty"`   // operand is the directory that holds the leaf
	Cur     bool   `json:"cur,omitempty"`  // no-op argument: the operand's CURRENT value (resolveCur)
	Creates bool   `json:"creates,omitempty"`
}

func (c callT) label() string {
	if c.Variant == "" {
		return c.Op
	}

	return c.Op + "[" + c.Variant + "]"
}

// family is one call shape: varied nodes + operand + the calls applied to it.
type family struct {
	ID       string
	Depth    int
	Nodes    []nodeT
	Leaf     string // relative path of the operand
	LeafKind string // F E D N L or M (missing)
	Calls    []callT
}

// block = family x acting user: the unit that is enumerated exhaustively.
type block struct {
	Fam   *family
	Phase string
	Actor int
	radix [][3]int // per node: |OG|, |modes|, |special|
	N     int
}

// flagName spells a flag set: access mode, then CREATE, EXCL, TRUNC, APPEND.
func flagName(f int) string {
	n := []string{"RDONLY", "WRONLY", "RDWR", "ACC3"}[f&3]

	for _, x := range []struct {
		f int
		n string
	}{{os.O_CREATE, "CREATE"}, {os.O_EXCL, "EXCL"}, {os.O_TRUNC, "TRUNC"}, {os.O_APPEND, "APPEND"}} {
		if f&x.f != 0 {
			n += "|" + x.n
			f &^= x.f
		}
	}

	if f &^= 3; f != 0 {
		n += fmt.Sprintf("|%#x", f)
	}

	return n
}

// openFlagSets is the open-flag dimension: the FULL product
//
//	access mode {RDONLY, WRONLY, RDWR} x {-, TRUNC} x {-, APPEND} x {-, CREATE, CREATE|EXCL}
//
// (36 flag sets), not a list of the combinations programs usually write.
// Lesson: a flag word is decoded flag by flag into "what the open needs", and
// the kernel's rule is per flag - the access mode needs read and/or write
// permission on the file, O_TRUNC needs write permission WHATEVER the access
// mode (O_RDONLY|O_TRUNC is legal and truncates), O_APPEND needs nothing by
// itself, O_CREATE needs write+search on the directory only when the name is
// missing and nothing on a file that exists. A decoder that is right for every
// usual combination (each of which names write access twice: WRONLY|TRUNC,
// WRONLY|APPEND, RDWR|CREATE) can be wrong for one flag on its own; only the
// unusual combinations, where exactly one flag carries the need, tell. Every
// flag set is applied to an existing file, an existing directory and a missing
// name (families Fo, Do, M) under every (owner, group, mode) configuration of
// the family; the kernel gives the answer and the trees are compared after the
// call (a refused O_TRUNC open must leave the content, an allowed one must
// truncate on both sides).
func openFlagSets() []int {
	var fs []int

	for _, cr := range []int{0, os.O_CREATE, os.O_CREATE | os.O_EXCL} {
		for _, ap := range []int{0, os.O_APPEND} {
			for _, tr := range []int{0, os.O_TRUNC} { // truncating sets last in each group: they change the file when allowed
				for _, acc := range []int{os.O_RDONLY, os.O_WRONLY, os.O_RDWR} {
					fs = append(fs, acc|cr|ap|tr)
				}
			}
		}
	}

	return fs
}

// callsOpen: every flag set of openFlagSets on the operand (an existing file
// or directory: perm and umask of a creating flag set must be ignored).
func callsOpen() []callT {
	var cs []callT

	for _, f := range openFlagSets() {
		c := callT{Op: "OpenFile", Variant: flagName(f), Flag: f, Umask: 0o022}
		if f&os.O_CREATE != 0 {
			c.Perm = 0o666
		}

		cs = append(cs, c)
	}

	return cs
}

// ownerUmasks: the masks that take something away from the OWNER class - every
// non-zero value of the owner digit, and everything. Lesson: the usual masks
// (0, 002, 022, 027, 077) leave the creator all the bits of perm in his own
// class, so "the mode the object was given" and "the perm argument" grant him
// the same and code that consults the wrong one of the two cannot be told from
// code that consults the right one. A mask with an owner bit makes them differ:
// the creator himself may then not write to / search / read what he has just
// created, which decides the NEXT step of a call made of several creations
// (MkdirAll with two or three missing levels: level k+1 is created inside
// level k with the mode level k was just given, and the kernel refuses it with
// EACCES when that mode lacks owner w or x). Every creating call is enumerated
// with every perm x every mask of allUmasks, the multi-level creations with 1,
// 2 and 3 missing levels; the kernel gives the answer (os.MkdirAll = successive
// mkdir(2)) and the trees are compared (what a refused MkdirAll leaves).
var ownerUmasks = []oct{0o100, 0o200, 0o300, 0o400, 0o500, 0o600, 0o700, 0o777}

var (
	allUmasks = append([]oct{0o022, 0o000, 0o002, 0o027, 0o077}, ownerUmasks...)
	allPerms  = []oct{0o666, 0o600, 0o777, 0o2755}
	chownAll  = []string{"self", "uid-other", "gid-own", "gid-other", "noop", "uid-self", "uid-other+gid-own", "uid-self+gid-other", "uid-other+gid-other"}

	// chownMixed: BOTH fields given, one acceptable on its own and the other not,
	// in both orders of acceptability, and both unacceptable. Lesson: a call with
	// several arguments that are validated one after the other can store the
	// first before it refuses the second; the errno is right, the state is not.
	// Forms with a single field (or two acceptable ones) cannot show that: every
	// multi-field call is enumerated with each field acceptable / unacceptable
	// independently, and the state after the refusal is compared (worker.go).
	// Which field is "acceptable" depends on the node as well: for the owner a
	// group is acceptable when it is his own OR the current one of the node, so
	// "uid-other+gid-other" on a node of the other group is again "user refused,
	// group fine", and "uid-self+gid-other" on such a node is allowed as a whole.
	chownMixed = []string{"uid-other+gid-own", "uid-self+gid-other", "uid-other+gid-other"}
)

// resolveChown gives the numeric arguments of a chown form for an actor.
func resolveChown(form string, a user) (uid, gid int) {
	otherUid := 1002
	if a.Uid == 1002 {
		otherUid = 1001
	}

	otherGid := gid2
	if a.Gid == gid2 {
		otherGid = gid1
	}

	switch form {
	case "self":
		return a.Uid, a.Gid
	case "uid-other":
		return otherUid, -1
	case "gid-own":
		return -1, a.Gid
	case "gid-other":
		return -1, otherGid
	case "noop":
		return -1, -1
	case "uid-self":
		return a.Uid, -1
	case "uid-other+gid-own":
		return otherUid, a.Gid
	case "uid-self+gid-other":
		return a.Uid, otherGid
	case "uid-other+gid-other":
		return otherUid, otherGid
	}

	panic("chown form " + form)
}

// The no-op argument dimension. Lesson: the kernel decides permission BEFORE it
// looks at whether the call would change anything - truncate(2) to the current
// length without write permission is EACCES, chmod(2) to the current mode and
// chown(2) to the current owner and group by somebody who is not the owner are
// EPERM, ftruncate(2) to the current length on a read-only descriptor is EINVAL -
// while a library is tempted to return early "because there is nothing to do",
// and a shortcut placed above the permission check allows what must be refused
// for exactly one argument value. (The other way round, rename(2) of a name onto
// itself IS decided before the directory permissions: nothing is asked of the
// directory; the kernel gives the answer here as everywhere.) So every call
// that sets an attribute to a given value is also enumerated with the value the
// operand ALREADY has - Cur: resolved against the configuration by resolveCur,
// the length against the content the administrator history wrote - under every
// (owner, group, mode) configuration of its family, and the trees are compared
// after it like after any other call. Chtimes with the current times is not
// tried (times are not compared by C03).
const (
	sizeF = 3 // length of the content of a file of kind F ("abc"); kind E is empty
)

// callsCurPath: the path-taking calls with the current value, for an operand
// whose current length is size (negative: not a regular file).
func callsCurPath(size int64, dest bool) []callT {
	um := oct(0o022)

	var cs []callT

	if size >= 0 {
		cs = append(cs, callT{Op: "Truncate", Variant: "current-size", Size: size, Cur: true, Umask: um})
	}

	cs = append(cs,
		callT{Op: "Chmod", Variant: "current-mode", Cur: true, Umask: um},
		callT{Op: "Chown", Variant: "current-owner", Cur: true, Umask: um},
	)

	if dest {
		cs = append(cs, callT{Op: "Rename", Variant: "onto-itself", Cur: true, Umask: um})
	}

	return cs
}

// resolveCur fills in the arguments of a call that repeats the current value of
// its operand (the leaf of the configuration); idempotent, so that a replay
// file can hold the resolved call.
func resolveCur(c callT, nodes []node) callT {
	if !c.Cur {
		return c
	}

	for _, n := range nodes {
		if n.Role != "leaf" {
			continue
		}

		switch c.Op {
		case "Chmod", "File.Chmod":
			c.Perm = n.Mode
		}
	}

	return c
}

// calls on an empty regular file: length 0 is the current length, so the
// "nothing to do" value of Truncate and of O_TRUNC is the most usual argument.
func callsE() []callT {
	um := oct(0o022)

	return []callT{
		{Op: "Truncate", Variant: "current-size", Size: 0, Cur: true, Umask: um},
		{Op: "OpenFile", Variant: flagName(os.O_WRONLY | os.O_TRUNC), Flag: os.O_WRONLY | os.O_TRUNC, Umask: um},
		{Op: "OpenFile", Variant: flagName(os.O_RDONLY | os.O_TRUNC), Flag: os.O_RDONLY | os.O_TRUNC, Umask: um},
		{Op: "File.Truncate", Variant: "WRONLY,current-size", Flag: os.O_WRONLY, Size: 0, Cur: true, Umask: um},
		{Op: "File.Truncate", Variant: "RDONLY,current-size", Flag: os.O_RDONLY, Size: 0, Cur: true, Umask: um},
		{Op: "Truncate", Variant: "5", Size: 5, Umask: um},
	}
}

// calls on an existing regular file.
func callsF(tier string, dest string) []callT {
	var cs []callT

	um := oct(0o022)

	for _, f := range []int{os.O_RDONLY, os.O_WRONLY, os.O_RDWR, os.O_WRONLY | os.O_TRUNC, os.O_WRONLY | os.O_APPEND} {
		cs = append(cs, callT{Op: "OpenFile", Variant: flagName(f), Flag: f, Umask: um})
	}

	// creating flag sets on an existing file: perm and umask must be ignored
	for _, f := range []int{os.O_RDWR | os.O_CREATE, os.O_WRONLY | os.O_CREATE | os.O_EXCL} {
		for _, u := range []oct{0o022, 0o077} {
			cs = append(cs, callT{Op: "OpenFile", Variant: flagName(f), Flag: f, Perm: 0o666, Umask: u})
		}
	}

	cs = append(cs,
		callT{Op: "Create", Umask: um},
		callT{Op: "WriteFile", Variant: "0600", Perm: 0o600, Umask: um},
		callT{Op: "ReadFile", Umask: um},
		callT{Op: "Stat", Umask: um},
		callT{Op: "Lstat", Umask: um},
		callT{Op: "Truncate", Variant: "0", Size: 0, Umask: um},
		callT{Op: "Truncate", Variant: "5", Size: 5, Umask: um},
		callT{Op: "Chtimes", Umask: um},
	)

	// the no-op argument dimension (callsCurPath); Rename onto itself goes with
	// the other calls on the name below
	cs = append(cs, callsCurPath(sizeF, false)...)

	chmods := []oct{0o640, 0o2755}
	if tier == "thorough" {
		chmods = append(chmods, 0o1777)
	}

	for _, m := range chmods {
		cs = append(cs, callT{Op: "Chmod", Variant: fmt.Sprintf("%04o", uint32(m)), Perm: m, Umask: um})
	}

	for _, f := range chownAll {
		cs = append(cs, callT{Op: "Chown", Variant: f, Form: f, Umask: um})
	}

	// File methods on a handle opened by the acting user
	fchown := append([]string{"self", "uid-other", "gid-own"}, chownMixed...)
	if tier == "thorough" {
		fchown = chownAll
	}

	for _, f := range fchown {
		cs = append(cs, callT{Op: "File.Chown", Variant: "RDONLY," + f, Flag: os.O_RDONLY, Form: f, Umask: um})
	}

	cs = append(cs,
		callT{Op: "File.Chmod", Variant: "RDONLY,0640", Flag: os.O_RDONLY, Perm: 0o640, Umask: um},
		callT{Op: "File.Chmod", Variant: "WRONLY,2755", Flag: os.O_WRONLY, Perm: 0o2755, Umask: um},
		callT{Op: "File.Truncate", Variant: "WRONLY", Flag: os.O_WRONLY, Size: 1, Umask: um},
		callT{Op: "File.Truncate", Variant: "RDONLY", Flag: os.O_RDONLY, Size: 1, Umask: um},
		callT{Op: "File.Truncate", Variant: "RDONLY,current-size", Flag: os.O_RDONLY, Size: sizeF, Cur: true, Umask: um},
		callT{Op: "File.Write", Variant: "WRONLY", Flag: os.O_WRONLY, Umask: um},
		callT{Op: "File.Write", Variant: "RDONLY", Flag: os.O_RDONLY, Umask: um},
	)

	if tier == "thorough" {
		cs = append(cs, callT{Op: "File.Write", Variant: "RDWR", Flag: os.O_RDWR, Umask: um})
	}

	// mutating calls on the name last (they force a rebuild when they succeed)
	cs = append(cs,
		callT{Op: "Rename", Variant: "onto-itself", Cur: true, Umask: um},
		callT{Op: "Link", Variant: "samedir", Dest: dest, Umask: um},
		callT{Op: "Rename", Variant: "samedir", Dest: dest, Umask: um},
		callT{Op: "Remove", Umask: um},
		callT{Op: "RemoveAll", Umask: um},
	)

	return cs
}

// calls on an existing empty directory.
func callsD(tier string, dest string) []callT {
	um := oct(0o022)
	cs := []callT{
		{Op: "OpenFile", Variant: "RDONLY", Flag: os.O_RDONLY, Umask: um},
		{Op: "OpenFile", Variant: "RDWR", Flag: os.O_RDWR, Umask: um},
		{Op: "ReadDir", Umask: um},
		{Op: "Stat", Umask: um},
		{Op: "Chdir", Umask: um},
		{Op: "Chtimes", Umask: um},
		{Op: "Mkdir", Variant: "0777", Perm: 0o777, Umask: um},
		{Op: "MkdirAll", Variant: "0777", Perm: 0o777, Umask: um},
		{Op: "File.ReadDir", Variant: "RDONLY", Flag: os.O_RDONLY, Umask: um},
		{Op: "File.Chmod", Variant: "RDONLY,0750", Flag: os.O_RDONLY, Perm: 0o750, Umask: um},
		{Op: "Chown", Variant: "gid-own", Form: "gid-own", Umask: um},
		{Op: "Chown", Variant: "uid-other", Form: "uid-other", Umask: um},
		{Op: "Chown", Variant: "uid-other+gid-own", Form: "uid-other+gid-own", Umask: um},
		{Op: "Chown", Variant: "uid-self+gid-other", Form: "uid-self+gid-other", Umask: um},
		{Op: "File.Chown", Variant: "RDONLY,uid-other+gid-own", Flag: os.O_RDONLY, Form: "uid-other+gid-own", Umask: um},
		{Op: "Chmod", Variant: "0750", Perm: 0o750, Umask: um},
		{Op: "Chmod", Variant: "2755", Perm: 0o2755, Umask: um},
	}

	// the no-op argument dimension on a directory: current mode, current owner,
	// Rename onto itself
	cs = append(cs, callsCurPath(-1, true)...)

	// two missing levels below an EXISTING directory under a mask that takes the
	// owner's write and search bits (ownerUmasks): the operand decides the first
	// level, the mode just given to the first level decides the second
	cs = append(cs, callT{Op: "MkdirAll", Variant: "2levels-below," + permClass(0o777) + umaskClass(0o300), Perm: 0o777, Umask: 0o300, Sub: "x/y", Creates: true})

	if tier == "thorough" {
		cs = append(cs, callT{Op: "Chmod", Variant: "1777", Perm: 0o1777, Umask: um},
			callT{Op: "Chown", Variant: "noop", Form: "noop", Umask: um},
			callT{Op: "Chown", Variant: "uid-other+gid-other", Form: "uid-other+gid-other", Umask: um},
			callT{Op: "File.Chown", Variant: "RDONLY,uid-self+gid-other", Flag: os.O_RDONLY, Form: "uid-self+gid-other", Umask: um},
			callT{Op: "File.Chown", Variant: "RDONLY,uid-other+gid-other", Flag: os.O_RDONLY, Form: "uid-other+gid-other", Umask: um})
	}

	cs = append(cs,
		callT{Op: "Rename", Variant: "samedir", Dest: dest, Umask: um},
		callT{Op: "Remove", Umask: um},
		callT{Op: "RemoveAll", Umask: um},
	)

	return cs
}

// calls on a directory holding one root-owned file "c".
func callsN(tier string, dest string) []callT {
	um := oct(0o022)

	return []callT{
		{Op: "ReadDir", Umask: um},
		{Op: "OpenFile", Variant: "RDONLY", Flag: os.O_RDONLY, Umask: um},
		{Op: "File.ReadDir", Variant: "RDONLY", Flag: os.O_RDONLY, Umask: um},
		{Op: "Remove", Umask: um},
		{Op: "Rename", Variant: "samedir", Dest: dest, Umask: um},
		{Op: "RemoveAll", Umask: um},
	}
}

// callsNUp: RemoveAll of the directory that HOLDS the non-empty directory (depth
// >= 2): what a refused or partly refused recursion leaves behind is judged
// entry by entry (an entry that is gone must have been removable by the caller).
func callsNUp(cs []callT, depth int) []callT {
	if depth < 2 {
		return cs
	}

	return append(cs, callT{Op: "RemoveAll", Variant: "holding-dir", Up: true, Umask: 0o022})
}

// calls on a symbolic link to the root-owned file R/tf.
func callsL(tier string, dest string) []callT {
	um := oct(0o022)
	cs := []callT{
		{Op: "Stat", Umask: um},
		{Op: "Lstat", Umask: um},
		{Op: "Readlink", Umask: um},
		{Op: "ReadFile", Umask: um},
	}

	forms := []string{"self", "uid-other", "gid-own", "noop", "uid-other+gid-own", "uid-self+gid-other"}
	if tier == "thorough" {
		forms = chownAll
	}

	for _, f := range forms {
		cs = append(cs, callT{Op: "Lchown", Variant: f, Form: f, Umask: um})
	}

	cs = append(cs,
		callT{Op: "Lchown", Variant: "current-owner", Cur: true, Umask: um},
		callT{Op: "Rename", Variant: "onto-itself", Cur: true, Umask: um},
		callT{Op: "Rename", Variant: "samedir", Dest: dest, Umask: um},
		callT{Op: "Remove", Umask: um},
	)

	return cs
}

// calls on a missing name: the creating calls with every perm x umask.
func callsM(tier string) []callT {
	um := oct(0o022)
	cs := []callT{
		{Op: "Stat", Umask: um},
		{Op: "OpenFile", Variant: "RDONLY", Flag: os.O_RDONLY, Umask: um},
		{Op: "Remove", Umask: um},
		{Op: "RemoveAll", Umask: um},
	}

	for _, u := range allUmasks {
		cs = append(cs, callT{Op: "Create", Umask: u, Creates: true})
	}

	// permission is decided when the handle is opened: a handle created with a
	// mode that grants nothing stays usable for what it was opened for
	cs = append(cs,
		callT{Op: "File.Truncate", Variant: "RDWR|CREATE|EXCL,0444", Flag: os.O_RDWR | os.O_CREATE | os.O_EXCL, Perm: 0o444, Size: 1, Umask: um, Creates: true},
		callT{Op: "File.Write", Variant: "WRONLY|CREATE|EXCL,0000", Flag: os.O_WRONLY | os.O_CREATE | os.O_EXCL, Perm: 0, Umask: um, Creates: true},
	)

	for _, u := range []oct{0o022, 0o077, 0o300, 0o777} {
		cs = append(cs, callT{Op: "Symlink", Umask: u, Creates: true})
	}

	// the open-flag dimension (openFlagSets) on a missing name: without O_CREATE
	// the name stays missing whatever else is asked for, with it the directory
	// decides; the flag sets that are varied over perm x umask below are left out
	for _, f := range openFlagSets() {
		switch f {
		case os.O_RDONLY, os.O_RDWR | os.O_CREATE, os.O_WRONLY | os.O_CREATE | os.O_EXCL:
			continue
		}

		c := callT{Op: "OpenFile", Variant: flagName(f), Flag: f, Umask: um}
		if f&os.O_CREATE != 0 {
			c.Perm, c.Creates = 0o666, true
			c.Variant += "," + permClass(c.Perm)
		}

		cs = append(cs, c)
	}

	for _, p := range allPerms {
		for _, u := range allUmasks {
			v := permClass(p) + umaskClass(u)
			cs = append(cs,
				callT{Op: "Mkdir", Variant: v, Perm: p, Umask: u, Creates: true},
				callT{Op: "MkdirAll", Variant: v, Perm: p, Umask: u, Creates: true},
				callT{Op: "MkdirAll", Variant: "2levels," + v, Perm: p, Umask: u, Sub: "x", Creates: true},
				callT{Op: "MkdirAll", Variant: "3levels," + v, Perm: p, Umask: u, Sub: "x/y", Creates: true},
				callT{Op: "OpenFile", Variant: "RDWR|CREATE," + v, Flag: os.O_RDWR | os.O_CREATE, Perm: p, Umask: u, Creates: true},
				callT{Op: "OpenFile", Variant: "WRONLY|CREATE|EXCL," + v, Flag: os.O_WRONLY | os.O_CREATE | os.O_EXCL, Perm: p, Umask: u, Creates: true},
				callT{Op: "WriteFile", Variant: v, Perm: p, Umask: u, Creates: true},
			)
		}
	}

	return cs
}

// permClass is the class of a creation mode in signatures (the exact value is
// in the replay): what can matter is a special bit and whether the owner gets
// search permission on a directory created with it.
func permClass(p oct) string {
	switch {
	case p&0o7000 != 0:
		return "perm-setgid"
	case p&0o100 == 0:
		return "perm-rw"
	}

	return "perm-rwx"
}

// umaskClass is the class of a mask in signatures: empty for the usual masks
// (the creator keeps what perm gives him), else which of the owner's bits the
// mask takes (ownerUmasks).
func umaskClass(u oct) string {
	if u&0o700 == 0 {
		return ""
	}

	return ",umask-owner-" + strings.Map(func(r rune) rune {
		if u&map[rune]oct{'r': 0o400, 'w': 0o200, 'x': 0o100}[r] == 0 {
			return -1
		}

		return r
	}, "rwx")
}

// level describes the domains used by one phase.
type level struct {
	parent, leaf, leafDir, grand dom
}

var (
	lvMini  = level{parent: dom{0, 0, 2}, leaf: dom{1, 0, 0}, leafDir: dom{1, 0, 0}, grand: dom{0, 0, 0}}
	lvQuick = level{parent: dom{0, 1, 2}, leaf: dom{1, 1, 0}, leafDir: dom{1, 1, 0}, grand: dom{0, 1, 0}}
	lvFull  = level{parent: dom{2, 2, 2}, leaf: dom{2, 2, 0}, leafDir: dom{2, 2, 2}, grand: dom{2, 2, 2}}
)

// families builds the call shapes of one depth at one level.
//
//	depth 1: R/n            (R itself is root:root 0755, fixed)
//	depth 2: R/p/n          p varied
//	depth 3: R/g/p/n        g and p varied
//	cross  : R/p/n -> R/q/b p, q and n varied (Rename, Link)
func families(tier string, depth int, lv level, tag string) []*family {
	var dirs []nodeT

	prefix := ""

	switch depth {
	case 2:
		dirs = []nodeT{{"p", "p", "D", lv.parent}}
		prefix = "p/"
	case 3:
		dirs = []nodeT{{"g", "g", "D", lv.grand}, {"p", "g/p", "D", lv.parent}}
		prefix = "g/p/"
	}

	leaf := prefix + "n"
	dest := prefix + "b"
	id := func(k string) string { return fmt.Sprintf("d%d/%s%s", depth, k, tag) }

	with := func(k string, d dom) []nodeT {
		return append(append([]nodeT{}, dirs...), nodeT{"leaf", leaf, k, d})
	}

	symDom := dom{OG: lv.leaf.OG, Modes: -1}
	ogOnly := dom{OG: lv.leaf.OG, Modes: -1}
	um := oct(0o022)
	// Rename / Link onto an existing file of the same directory: the victim's
	// owner matters in a sticky directory
	onto := append(with("F", ogOnly), nodeT{"b", dest, "F", ogOnly})

	// Fo / Do: the open-flag dimension (openFlagSets) on an existing file and an
	// existing directory. The flags interact with the permission bits of the
	// operand (full leaf domain for the file) and, through O_CREATE, with write
	// permission on the containing directory; special bits of the directories
	// and the other classes' bits of the containing directory do not take part
	// in that decision, so those nodes use the 8-value set without special bits
	// (the product with the full directory domains is what F and D enumerate for
	// the usual flag sets).
	var odirs []nodeT
	for _, d := range dirs {
		odirs = append(odirs, nodeT{d.Role, d.Path, d.Kind, dom{OG: d.Dom.OG, Modes: min(d.Dom.Modes, 0)}})
	}

	fo := append(append([]nodeT{}, odirs...), nodeT{"leaf", leaf, "F", lv.leaf})
	do := append(append([]nodeT{}, odirs...), nodeT{"leaf", leaf, "D", dom{OG: lv.leafDir.OG, Modes: min(lv.leafDir.Modes, 0)}})

	// E: an EMPTY regular file (full leaf domain, directories as in Fo): the
	// no-op argument dimension where the no-op value is the usual one
	eo := append(append([]nodeT{}, odirs...), nodeT{"leaf", leaf, "E", lv.leaf})

	return []*family{
		{ID: id("F"), Depth: depth, Nodes: with("F", lv.leaf), Leaf: leaf, LeafKind: "F", Calls: callsF(tier, dest)},
		{ID: id("M"), Depth: depth, Nodes: dirs, Leaf: leaf, LeafKind: "M", Calls: callsM(tier)},
		{ID: id("D"), Depth: depth, Nodes: with("D", lv.leafDir), Leaf: leaf, LeafKind: "D", Calls: callsD(tier, dest)},
		{ID: id("N"), Depth: depth, Nodes: with("N", lv.leafDir), Leaf: leaf, LeafKind: "N", Calls: callsNUp(callsN(tier, dest), depth)},
		{ID: id("L"), Depth: depth, Nodes: with("L", symDom), Leaf: leaf, LeafKind: "L", Calls: callsL(tier, dest)},
		{ID: id("FF"), Depth: depth, Nodes: onto, Leaf: leaf, LeafKind: "F", Calls: []callT{
			{Op: "Link", Variant: "samedir-onto", Dest: dest, Umask: um},
			{Op: "Rename", Variant: "samedir-onto", Dest: dest, Umask: um},
		}},
		{ID: id("Fo"), Depth: depth, Nodes: fo, Leaf: leaf, LeafKind: "F", Calls: callsOpen()},
		{ID: id("Do"), Depth: depth, Nodes: do, Leaf: leaf, LeafKind: "D", Calls: callsOpen()},
		{ID: id("E"), Depth: depth, Nodes: eo, Leaf: leaf, LeafKind: "E", Calls: callsE()},
	}
}

// crossFamilies: two parent directories directly below R.
func crossFamilies(tier string, full bool) []*family {
	um := oct(0o022)
	p := dom{0, 0, 1}
	q := dom{0, 0, 2}
	qd := dom{0, 0, 0}
	lf := dom{1, -1, 0}
	ld := dom{1, 0, 0}
	tag := ""

	if full {
		p, q, qd = dom{0, 1, 2}, dom{0, 1, 2}, dom{0, 1, 1}
		lf, ld = dom{1, 0, 0}, dom{1, 1, 0}
		tag = "+"
	}

	// x2/FF: a two-directory Rename / Link ONTO AN EXISTING entry. Lesson: a call
	// with two operands consults two directories, and each rule belongs to one of
	// them - the sticky bit of the SOURCE directory protects the entry that is
	// moved away, the sticky bit of the DESTINATION directory protects the entry
	// that is replaced (rename(2): may_delete on each side). When both names are
	// in one directory, or when the two directories get the same attributes, or
	// when only one of them is varied, code that asks the wrong directory cannot
	// be told from code that asks the right one. So the attributes of the two
	// directories are enumerated INDEPENDENTLY (full product: owner x rwx x
	// special bits of p, times the same of q - exactly one sticky, both, none;
	// each owned by the caller, by another user, by root), and so are the owners
	// of the two entries (the moved one and the replaced one: the caller's,
	// somebody else's, root's, independently), since "owns the entry" lifts the
	// sticky restriction per entry. The replaced entry missing is shape x2/F.
	// The kernel gives the answer; the trees are compared after the call (a
	// refused Rename must leave the victim's content and owner).
	op, oq := p, q
	oe := dom{0, -1, 0} // entries: owner in {actor, other user, root}, mode fixed

	if !full {
		oq = dom{0, 0, 1} // quick: both directories none / sticky
	} else {
		// thorough: 8 rwx values (the sticky decision needs w+x on both; the other
		// classes' bits take no part), none / sticky / setgid on both, entries with
		// the foreign-group owner as well
		op, oq = dom{0, 0, 2}, dom{0, 0, 2}
		oe = dom{1, -1, 0}
	}

	return []*family{
		{
			ID: "x2/F" + tag, Depth: 2, Leaf: "p/n", LeafKind: "F",
			Nodes: []nodeT{{"p", "p", "D", p}, {"q", "q", "D", q}, {"leaf", "p/n", "F", lf}},
			Calls: []callT{
				{Op: "Link", Variant: "crossdir", Dest: "q/b", Umask: um},
				{Op: "Rename", Variant: "crossdir", Dest: "q/b", Umask: um},
			},
		},
		{
			ID: "x2/D" + tag, Depth: 2, Leaf: "p/n", LeafKind: "D",
			Nodes: []nodeT{{"p", "p", "D", p}, {"q", "q", "D", qd}, {"leaf", "p/n", "D", ld}},
			Calls: []callT{
				{Op: "Rename", Variant: "crossdir", Dest: "q/b", Umask: um},
			},
		},
		{
			ID: "x2/FF" + tag, Depth: 2, Leaf: "p/n", LeafKind: "F",
			Nodes: []nodeT{{"p", "p", "D", op}, {"q", "q", "D", oq}, {"leaf", "p/n", "F", oe}, {"b", "q/b", "F", oe}},
			Calls: []callT{
				{Op: "Link", Variant: "crossdir-onto", Dest: "q/b", Umask: um},
				{Op: "Rename", Variant: "crossdir-onto", Dest: "q/b", Umask: um},
			},
		},
	}
}

// plan returns the blocks of a tier in the order they are explored: simplest
// shapes first.
func plan(tier string) []*block {
	var out []*block

	add := func(phase string, fams []*family, actors []int) {
		for _, f := range fams {
			for _, a := range actors {
				out = append(out, newBlock(phase, f, a))
			}
		}
	}

	if tier == "quick" {
		actors := []int{1, 0}
		add("A", families(tier, 1, lvQuick, ""), actors)
		add("A", families(tier, 2, lvQuick, ""), actors)
		add("A", crossFamilies(tier, false), actors)

		return out
	}

	all := []int{1, 2, 3, 0}
	// A: the quick space for every acting user
	add("A", families(tier, 1, lvQuick, ""), all)
	add("A", families(tier, 2, lvQuick, ""), all)
	add("A", crossFamilies(tier, false), all)
	// B: depth 3, grandparent at the 16-mode set, lower nodes at the 8-mode set
	lb := lvMini
	lb.grand = dom{0, 1, 0}
	add("B", families(tier, 3, lb, ""), []int{1, 0})
	// C: the full covering set on depth <= 2
	add("C", families(tier, 1, lvFull, "+"), all)
	add("C", families(tier, 2, lvFull, "+"), all)
	add("C", crossFamilies(tier, true), all)
	// D: depth 3 again with special bits on the grandparent, for the user of
	// the other group (kept last and small: A-D fit a 20 min budget on 16 cores)
	ld := lvMini
	ld.grand = dom{0, 0, 2}
	add("D", families(tier, 3, ld, "s"), []int{3})

	// within a phase the small blocks first: a budget cut then leaves as many
	// blocks as possible complete (the counterexample kept for a signature is
	// chosen by cost, not by position)
	sort.SliceStable(out, func(i, j int) bool {
		if out[i].Phase != out[j].Phase {
			return out[i].Phase < out[j].Phase
		}

		return out[i].N*len(out[i].Fam.Calls) < out[j].N*len(out[j].Fam.Calls)
	})

	return out
}

func newBlock(phase string, f *family, actor int) *block {
	b := &block{Fam: f, Phase: phase, Actor: actor, N: 1}

	for _, nt := range f.Nodes {
		r := [3]int{len(ogDomain(nt.Dom.OG, actor)), modeCount(nt, actor), 1}
		if nt.Kind == "D" || nt.Kind == "N" {
			r[2] = nt.Dom.Special + 1
		}

		b.radix = append(b.radix, r)
		b.N *= r[0] * r[1] * r[2]
	}

	return b
}

func (b *block) name() string {
	return fmt.Sprintf("%s:%s/%s", b.Phase, b.Fam.ID, users[b.Actor].Name)
}

// ogDomain lists the (uid, gid) pairs of a node for an acting user.
func ogDomain(lvl, actor int) [][2]int {
	if lvl == 2 {
		return [][2]int{{1001, gid1}, {1001, gid2}, {1002, gid1}, {1002, gid2}, {0, gid1}, {0, gid2}}
	}

	a := users[actor]
	if actor == 0 {
		d := [][2]int{{0, 0}, {1001, gid1}, {1002, gid2}}
		if lvl == 1 {
			d = append(d, [2]int{0, gid1})
		}

		return d
	}

	otherUid := 1002
	if a.Uid == 1002 {
		otherUid = 1001
	}

	otherGid := gid2
	if a.Gid == gid2 {
		otherGid = gid1
	}

	d := [][2]int{{a.Uid, a.Gid}, {otherUid, a.Gid}, {0, otherGid}}
	if lvl == 1 {
		d = append(d, [2]int{a.Uid, otherGid})
	}

	return d
}

func modeCount(nt nodeT, actor int) int {
	if nt.Dom.Modes < 0 || nt.Kind == "L" {
		return 1
	}

	l := nt.Dom.Modes
	if actor == 0 && l > 0 {
		l-- // the administrator bypasses the bits: one step smaller set
	}

	return 8 << l
}

// classOf is the permission class Linux selects for an actor on a node.
func classOf(a user, uid, gid int) string {
	switch {
	case a.Uid == 0:
		return "admin"
	case a.Uid == uid:
		return "owner"
	case a.Gid == gid:
		return "group"
	}

	return "other"
}

// modeAt returns the i-th mode of the covering set for the class that applies.
func modeAt(nt nodeT, actor int, uid, gid, i int) oct {
	if nt.Kind == "L" {
		return 0o777
	}

	if nt.Dom.Modes < 0 {
		if nt.Kind == "F" || nt.Kind == "E" {
			return 0o644
		}

		return 0o755
	}

	shift := uint(0)

	switch classOf(users[actor], uid, gid) {
	case "owner":
		shift = 6
	case "group":
		shift = 3
	}

	// permissive first: 7,6,5,...,0 in the applicable class
	v := oct(7 - i%8)
	rest := i / 8
	m := v << shift

	var others []uint
	for _, s := range []uint{6, 3, 0} {
		if s != shift {
			others = append(others, s)
		}
	}

	l := nt.Dom.Modes
	if actor == 0 && l > 0 {
		l--
	}

	switch l {
	case 1:
		if rest == 1 {
			m |= 7<<others[0] | 7<<others[1]
		}
	case 2:
		if rest&1 != 0 {
			m |= 7 << others[0]
		}

		if rest&2 != 0 {
			m |= 7 << others[1]
		}
	}

	return m
}

var specials = []oct{0, 0o1000, 0o2000}

// decode builds configuration number idx of a block.
func (b *block) decode(idx int) []node {
	nodes := make([]node, len(b.Fam.Nodes))

	// the leaf varies fastest
	for i := len(b.Fam.Nodes) - 1; i >= 0; i-- {
		nt := b.Fam.Nodes[i]
		r := b.radix[i]
		mi := idx % r[1]
		idx /= r[1]
		si := idx % r[2]
		idx /= r[2]
		oi := idx % r[0]
		idx /= r[0]
		og := ogDomain(nt.Dom.OG, b.Actor)[oi]
		m := modeAt(nt, b.Actor, og[0], og[1], mi)

		if nt.Kind == "D" || nt.Kind == "N" {
			m |= specials[si]
		}

		nodes[i] = node{Role: nt.Role, Path: nt.Path, Kind: nt.Kind, Uid: og[0], Gid: og[1], Mode: m}
	}

	return nodes
}

// cost ranks instances of one signature: the cheapest one is kept as the
// counterexample (fewest levels, no special bits, permissive modes, default
// umask).
func cost(depth int, nodes []node, actor int, c callT) int {
	k := depth * 10000

	for _, n := range nodes {
		if n.Mode&0o7000 != 0 {
			k += 500
		}

		k += 10 * bits.OnesCount32(uint32(n.Mode&0o777)^0o777)

		if n.Uid != users[actor].Uid {
			k += 30
		}

		if n.Gid != users[actor].Gid {
			k += 20
		}
	}

	if c.Umask != 0o022 {
		k += 5
	}

	if c.Perm&0o7000 != 0 {
		k += 5
	}

	return k
}

func specialName(m oct) string {
	var s []string

	if m&0o1000 != 0 {
		s = append(s, "sticky")
	}

	if m&0o2000 != 0 {
		s = append(s, "setgid")
	}

	if m&0o4000 != 0 {
		s = append(s, "setuid")
	}

	if len(s) == 0 {
		return "none"
	}

	return strings.Join(s, "+")
}
