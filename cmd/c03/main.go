// c03: permission and ownership enforcement of MemFS equals Linux
// discretionary access control.
//
// Model checking by bounded exhaustive enumeration of a configuration space:
// every assignment from a covering set of (owner, group, mode) to the <= 3
// nodes on the path(s) of a call x acting users x umasks x all path-taking
// calls (and the File methods on a handle opened by the acting user; OpenFile
// with the full product of access mode x O_TRUNC x O_APPEND x O_CREATE[|O_EXCL]
// on a file, a directory and a missing name, space.go openFlagSets). Each
// configuration is built by a short administrator history on a fresh real
// MemFS and, identically, on a tmpfs scratch directory at the same absolute
// path; the call under test is executed on both sides - on the kernel side
// under setfsgid/setfsuid of the acting user on a locked thread - and the
// outcomes, the created object's owner/group/mode and the resulting trees are
// compared. The Linux kernel is the oracle. Nothing is sampled.
//
// Parallelism: worker subprocesses (re-exec of this binary with -c03worker),
// see priv.go for the reasons and the sandbox facts this relies on.
package main

import (
	"bufio"
	"encoding/json"
	"flag"
	"fmt"
	"os"
	"os/exec"
	"path/filepath"
	"runtime"
	"sort"
	"strconv"
	"strings"
	"sync"
	"time"

	"verif/lib/concfs"
	"verif/lib/ev"
	"verif/lib/kf"
)

// reportCap bounds the kf.Report calls per signature.
const reportCap = 1000

type chunk struct {
	task
	seq int
}

type blockStat struct {
	Name     string `json:"block"`
	Configs  int    `json:"configurations"`
	Calls    int    `json:"calls_per_configuration"`
	Done     int    `json:"configurations_done"`
	Evals    int    `json:"evaluations"`
	Complete bool   `json:"complete"`
}

type global struct {
	mu      sync.Mutex
	stats   []*blockStat
	configs int
	builds  int
	evals   int
	refused int
	allowed int
	skipped int

	skippedOther int
	artefact     int
	offFormula   int
	maskedChmod  int
	maskedRmAll  int
	rmAllViaRm   int
	outcomes     map[string]int
	viols        map[string]*violAgg
	violSeq      map[string]int
	samples      map[int][]*replay
	err          string
}

func (g *global) merge(c chunk, r reply) {
	g.mu.Lock()
	defer g.mu.Unlock()

	if r.Err != "" {
		if g.err == "" {
			g.err = fmt.Sprintf("task block=%d [%d,%d): %s", r.Block, r.Start, r.End, r.Err)
		}

		return
	}

	st := g.stats[r.Block]
	st.Done += r.Configs
	st.Evals += r.Evals
	g.configs += r.Configs
	g.builds += r.Builds
	g.evals += r.Evals
	g.refused += r.Refused
	g.allowed += r.Allowed
	g.skipped += r.PolicySkipped
	g.skippedOther += r.PolicySkippedOther
	g.artefact += r.ArtefactSkipped
	g.offFormula += r.KernelOffFormula
	g.maskedChmod += r.MaskedChmodSetgid
	g.maskedRmAll += r.MaskedRemoveAll
	g.rmAllViaRm += r.RemoveAllViaRemove

	for k, n := range r.Outcomes {
		g.outcomes[k] += n
	}

	if len(r.Samples) > 0 && r.Start == 0 {
		g.samples[r.Block] = r.Samples
	}

	for _, v := range r.Viols {
		k := sigKey(v.Sig)

		a := g.viols[k]
		if a == nil {
			g.viols[k] = v
			g.violSeq[k] = c.seq

			continue
		}

		a.Count += v.Count
		// cheapest instance; ties go to the earlier task so that the choice
		// does not depend on scheduling
		if v.Cost < a.Cost || (v.Cost == a.Cost && c.seq < g.violSeq[k]) {
			a.Cost, a.Replay = v.Cost, v.Replay
			g.violSeq[k] = c.seq
		}
	}
}

func main() {
	concfs.MaybeShard(concPlan)
	concfs.MaybeReplay(concfs.OrLinear)

	id := flag.String("id", "C03", "")
	tier := flag.String("tier", "quick", "")
	replayFile := flag.String("replay", "", "re-execute the case of a replay file")
	isWorker := flag.Bool("c03worker", false, "")
	nWorkers := flag.Int("workers", 0, "")
	only := flag.String("only", "", "restrict to blocks whose name contains this text (debugging)")
	showPlan := flag.Bool("plan", false, "print the blocks of the tier and their sizes, then exit")
	noConc := flag.Bool("noconc", false, "skip the concurrent part")
	flag.Parse()

	if *showPlan {
		tc, te := 0, 0

		for _, b := range plan(*tier) {
			fmt.Printf("%-22s configurations=%-9d calls=%-4d evaluations=%d\n", b.name(), b.N, len(b.Fam.Calls), b.N*len(b.Fam.Calls))
			tc += b.N
			te += b.N * len(b.Fam.Calls)
		}

		fmt.Printf("total configurations=%d evaluations=%d\n", tc, te)

		return
	}

	scratch := os.Getenv("VERIF_SCRATCH")
	ownScratch := false

	if scratch == "" {
		scratch = fmt.Sprintf("/dev/shm/avfs-verif-c03-%d", os.Getpid())
		ownScratch = true
	}

	if *isWorker {
		workerMain(*tier, scratch)

		return
	}

	harness := func(msg string) {
		fmt.Fprintln(os.Stderr, "c03: harness error (not a verdict):", msg)
		killWorkers()

		if ownScratch {
			_ = os.RemoveAll(scratch)
		}

		os.Exit(2)
	}

	if os.Geteuid() != 0 {
		harness("needs root: the kernel oracle switches fsuid/fsgid and chowns")
	}

	if err := os.MkdirAll(scratch, 0o755); err != nil {
		harness(err.Error())
	}

	if err := openScratch(scratch); err != nil {
		harness(err.Error())
	}

	if *replayFile != "" {
		code := replayMain(*replayFile, scratch)

		if ownScratch {
			_ = os.RemoveAll(scratch)
		}

		os.Exit(code)
	}

	verifDir := os.Getenv("VERIF_DIR")
	if verifDir == "" {
		verifDir = "."
	}

	rep, err := kf.NewReporter(*id, filepath.Join(verifDir, "known_findings.txt"), filepath.Join(verifDir, "replays"))
	if err != nil {
		harness(err.Error())
	}

	rep.Discover = os.Getenv("VERIF_DISCOVER") != ""

	budget := 150
	if *tier == "thorough" {
		budget = 1200
	}

	if b, err := strconv.Atoi(os.Getenv("VERIF_BUDGET_S")); err == nil && b > 0 {
		budget = b
	}

	start := time.Now()
	// leave room for bookkeeping
	deadline := start.Add(time.Duration(budget)*time.Second - time.Duration(budget)*time.Second/20)

	blocks := plan(*tier)
	g := &global{outcomes: map[string]int{}, viols: map[string]*violAgg{}, violSeq: map[string]int{}, samples: map[int][]*replay{}}

	var chunks []chunk

	for bi, b := range blocks {
		g.stats = append(g.stats, &blockStat{Name: b.name(), Configs: b.N, Calls: len(b.Fam.Calls)})

		if *only != "" && !strings.Contains(b.name(), *only) {
			continue
		}

		size := 4000 / len(b.Fam.Calls)
		if size < 1 {
			size = 1
		}

		for s := 0; s < b.N; s += size {
			e := s + size
			if e > b.N {
				e = b.N
			}

			chunks = append(chunks, chunk{task: task{Block: bi, Start: s, End: e}, seq: len(chunks)})
		}
	}

	nw := *nWorkers
	if nw <= 0 {
		nw = runtime.NumCPU()
		if nw > 16 {
			nw = 16
		}
	}

	if nw > len(chunks) {
		nw = len(chunks)
	}

	self := os.Getenv("VERIF_BIN")
	if self == "" {
		self, _ = os.Executable()
	}

	feed := make(chan chunk)

	go func() {
		for _, c := range chunks {
			if time.Now().After(deadline) {
				break // budget: the blocks not handed out completely are reported as partial
			}

			g.mu.Lock()
			bad := g.err != ""
			g.mu.Unlock()

			if bad {
				break
			}

			feed <- c
		}

		close(feed)
	}()

	var wg sync.WaitGroup

	for i := 0; i < nw; i++ {
		wg.Add(1)

		go func(i int) {
			defer wg.Done()

			if err := driveWorker(self, *tier, scratch, blocks, feed, g); err != nil {
				g.mu.Lock()
				if g.err == "" {
					g.err = err.Error()
				}
				g.mu.Unlock()

				for range feed { // drain: the run is void anyway
				}
			}
		}(i)
	}

	wg.Wait()

	if g.err != "" {
		harness(g.err)
	}

	// what was covered
	exhaustive := true

	var (
		done, partial []string
		perPhase      = map[string][2]int{}
	)

	for i, st := range g.stats {
		st.Complete = st.Done == st.Configs

		if *only != "" && !strings.Contains(st.Name, *only) {
			continue
		}

		ph := blocks[i].Phase
		pp := perPhase[ph]
		pp[1]++

		if st.Complete {
			pp[0]++
			done = append(done, st.Name)
		} else {
			exhaustive = false
			partial = append(partial, fmt.Sprintf("%s(%d/%d)", st.Name, st.Done, st.Configs))
		}

		perPhase[ph] = pp
	}

	// report: cheapest instance of every signature first in its class
	keys := make([]string, 0, len(g.viols))
	for k := range g.viols {
		keys = append(keys, k)
	}

	sort.Strings(keys)

	total := 0

	for _, k := range keys {
		v := g.viols[k]
		total += v.Count

		// kf counts one instance per Report call and matches the known-finding
		// patterns on every call: the calls are capped, the exact number of
		// instances is kept in the replay object and in the evidence file
		if v.Replay != nil {
			v.Replay.Instances = v.Count
		}

		n := v.Count
		if n > reportCap {
			n = reportCap
		}

		for i := 0; i < n; i++ {
			rep.Report(kf.Sig(v.Sig), v.Replay)
		}
	}

	// concurrent part (see conc.go)
	conc := map[string]any{}

	if *only == "" && !*noConc {
		cb := 60
		if *tier == "thorough" {
			cb = 600
		}

		if left := int(time.Until(start.Add(time.Duration(budget) * time.Second)).Seconds()); left < cb {
			cb = max(left, 20)
		}

		ct, herr := concfs.RunPlan(concPlan(*tier), rep, cb)
		if herr != "" {
			harness("concurrent part: " + herr)
		}

		concfs.AddCoverage(conc, ct, concPlan(*tier).Bound)
		conc["distinct_outcomes"] = ct.DistinctOut
		conc["programs_with_schedule_dependent_outcome"] = ct.MultiOut
		conc["rule"] = "every ordered pair of the permission-sensitive templates, thread 0 and thread 1 acting for two different non-administrator users through their own views; " + concfs.CoverageRule

		if ct.TimedOut > 0 {
			exhaustive = false
		}

		fmt.Printf("C03 concurrent: programs=%d schedules=%d distinct-outcomes=%d schedule-dependent-programs=%d min-bound=%d timed-out=%d\n",
			ct.Programs, ct.Executions, ct.DistinctOut, ct.MultiOut, ct.MinBound, ct.TimedOut)
	}

	code := rep.Finish()

	var samples []any

	var sb []int
	for bi := range g.samples {
		sb = append(sb, bi)
	}

	sort.Ints(sb)

	for _, bi := range sb {
		if len(samples) >= 6 {
			break
		}

		for _, s := range g.samples[bi] {
			samples = append(samples, s)
		}
	}

	if len(samples) == 0 {
		samples = append(samples, "nothing evaluated")
	}

	bound := describeBound(*tier, perPhase)

	_ = ev.Write(filepath.Join(verifDir, "evidence", *id+".json"), ev.Evidence{
		PropertyID: *id, Tier: *tier, Seed: ev.Seed(), Level: "model_checking",
		Coverage: map[string]any{
			"states": g.configs, "transitions": g.evals, "traces_validated_against_impl": g.evals,
			"evaluations": g.evals, "distinct_nontrivial": len(g.outcomes),
			"rule":       "every configuration of a block (call shape x acting user) = full product of the per-node covering sets of (owner, group, mode); each built by an administrator history on a fresh MemFS and on tmpfs, then every call of the shape is executed on both sides (rebuilt after any call that changed either tree). After every call, allowed or refused, the MemFS tree (type, mode, owner, group, content, link count, existence of every entry) is compared with the kernel's (the tree before the call when the kernel refused a single system call); a call refused by MemFS alone must leave the MemFS tree unchanged. states = distinct configurations built; transitions = calls compared; distinct_nontrivial = distinct (call, class of the acting user on the operand, kernel outcome) triples observed",
			"samples":    samples,
			"exhaustive": exhaustive, "bound": bound,
			"concurrent_part": conc,
			"blocks_complete": len(done), "blocks_partial": append([]string{}, partial...), "blocks": g.stats,
			"builds": g.builds, "kernel_refused": g.refused, "kernel_allowed": g.allowed,
			"skipped_kernel_policy_protected_hardlinks": g.skipped, "skipped_kernel_policy_other": g.skippedOther,
			"skipped_go_removeall_parent_read_artefact":                      g.artefact,
			"kernel_created_object_off_formula":                              g.offFormula,
			"masked_chmod_setgid_cleared_by_kernel":                          g.maskedChmod,
			"trees_not_compared_after_refused_removeall":                     g.maskedRmAll,
			"removeall_judged_by_kernel_remove_after_go_parent_read_refusal": g.rmAllViaRm,
			"instances_note":         fmt.Sprintf("instance counts printed by the known-findings reporter are capped at %d per signature; exact counts: violation_instances here and instances_exact in each replay file", reportCap),
			"violation_instances":    total,
			"known_findings_matched": append([]string{}, rep.KnownMatched()...),
			"workers":                nw, "scratch_fs": fsTypeName(scratch),
			"sysctl_fs_protected_hardlinks": sysctlInt("fs/protected_hardlinks"), "sysctl_fs_protected_symlinks": sysctlInt("fs/protected_symlinks"),
			"sysctl_fs_protected_regular": sysctlInt("fs/protected_regular"),
		},
		Assumptions: []string{
			"oracle = the running Linux kernel (6.x) on tmpfs, process is root; the acting user is installed with setfsgid/setfsuid on a thread locked for the life of a worker process; a non-zero fsuid drops the file-system capabilities, fsuid 0 restores them (self-tested at worker start, exit 2 otherwise)",
			"supplementary groups are empty on the kernel side: MemIdm users have exactly one group",
			"no ACLs, no file capabilities, no LSM; kernel policies on top of DAC are not compared: with fs.protected_hardlinks=1 (the case here) Link evaluations the kernel answers with EPERM for a regular file (counted in skipped_kernel_policy_protected_hardlinks); with fs.protected_symlinks / fs.protected_regular non-zero (both 0 here) EACCES answers for a symbolic link followed, or an existing file opened with O_CREATE, inside a sticky directory (skipped_kernel_policy_other)",
			"ancestors of the scratch root are world-searchable on tmpfs (the driver adds o+rx to the per-run scratch directories) and root:root 0755 in MemFS",
			"created objects are judged by the formula of the property (uid = calling user, gid = calling group, mode = perm &^ umask including the special bits of perm), not by the kernel: Linux hands the group of a setgid directory (and the bit, for subdirectories) down to new objects, mkdir(2) ignores S_ISGID in its mode argument, and S_ISGID is stripped from a file created by a non-member of the group of a setgid directory or written by an unprivileged user; such kernel results are counted in kernel_created_object_off_formula and never reported",
			"chmod with S_ISGID by an owner who is not in the file's group: the kernel silently clears the bit, the property does not name that rule; a tree difference consisting only of S_ISGID present on the avfs side after Chmod/File.Chmod is masked (masked_chmod_setgid_cleared_by_kernel)",
			"os.RemoveAll of a non-empty directory opens the parent directory for reading after the plain remove failed; a refusal whose only cause is missing read permission on the parent is an artefact of Go's strategy and is not compared (skipped_go_removeall_parent_read_artefact)",
			"umask is varied for creating calls only; other calls run with umask 022. The masks are {022, 000, 002, 027, 077} and the owner-class masks {0100, 0200, 0300, 0400, 0500, 0600, 0700, 0777} (not all 512 values: the group / other digits of a mask only shape the mode of the new object, which is compared with the formula; the owner digit also decides what the creator may do next inside a directory he has just created), each x perm in {0666, 0600, 0777, 02755} for Mkdir, MkdirAll (1, 2, 3 missing levels), OpenFile(RDWR|CREATE), OpenFile(WRONLY|CREATE|EXCL), WriteFile; Create x 13 masks, Symlink x {022, 077, 0300, 0777}",
			"no-op arguments: Truncate / File.Truncate to the current length (3 for the file \"abc\", 0 for the empty file of shape E, where O_TRUNC opens are no-ops too), Chmod to the current mode, Chown / Lchown to the current (uid, gid), Rename(name, name); the kernel decides permission before it notices that nothing would change (and decides Rename onto itself before the directory permissions). For identical names the kernel side calls rename(2) directly: os.Rename answers EEXIST for a directory renamed onto itself from its own Lstat without asking the kernel. Chtimes to the current times, Link onto itself (EEXIST on both sides before anything else) and File.Chmod / File.Chown with the current values are not tried; shape E takes the directories above at the 8 rwx values without special bits (their full domains are enumerated in F)",
			"two-directory Rename/Link onto an existing entry (shape x2/FF): both entries are regular files with fixed mode 0644 (the mode of an entry takes no part in rename(2) / link(2)); the directories take the 8 rwx values of the applicable class with the other classes 000 and special bits {none, sticky} (thorough phase C: {none, sticky, setgid}), independently of one another; a directory as the moved or replaced entry across directories is enumerated only onto a missing name (x2/D)",
			"open flags: the flag word of OpenFile is the full product of access mode {O_RDONLY, O_WRONLY, O_RDWR}, O_TRUNC, O_APPEND and {none, O_CREATE, O_CREATE|O_EXCL} (36 sets; shapes Fo = existing file, Do = existing empty directory, M = missing name; perm 0666 and umask 022 for the creating sets, the sets RDWR|CREATE and WRONLY|CREATE|EXCL additionally over 4 perms x 5 umasks on a missing name). In Fo / Do the directories above the operand take the 8 rwx values of the applicable class without special bits (their full domains are enumerated in F / D / M with the usual flag sets). O_EXCL without O_CREATE (undefined by open(2)), access mode 3, O_SYNC / O_NONBLOCK / O_DIRECT ... are not tried; what a handle opened with an unusual flag set can then do (Write on a handle from O_RDONLY|O_TRUNC) is not a permission decision and belongs to C01/C02; the File.* calls use handles from RDONLY / WRONLY / RDWR (and two creating sets) only",
			"chown arguments are taken from {-1, the actor's uid, one other uid} x {-1, the actor's group, the other group} (9 forms, all on Chown of a file; on Lchown, File.Chown and on directories quick uses a subset that always holds the form user refused + group allowed, thorough all 9 on Lchown and File.Chown); uids/gids unknown to the identity manager are not tried",
			"the kernel tree is not read again after a refused single system call (a refused chown(2), chmod(2), open(2)... changes nothing in the kernel); the MemFS tree is read again after every call",
			"modification times are not compared (Chtimes: allowed/refused only); size and link count of symbolic links are not compared (C01/C04)",
			"handles are opened by the acting user on its own view; handles passed between views are not explored",
			"concurrent part: the oracle is linearizability against the sequential behaviour of the same build (not the kernel); scheduling assumptions as in C06: " + strings.Join(concfs.Assumptions, "; "),
		},
		Violations: rep.NewCount(),
	})

	if ownScratch {
		_ = os.RemoveAll(scratch)
	}

	fmt.Printf("C03 %s: blocks=%d complete=%d configurations=%d builds=%d evaluations=%d kernel(refused=%d allowed=%d policy-skipped=%d) outcome-classes=%d violation-instances=%d signatures=%d exhaustive=%v wall=%.1fs\n",
		*tier, len(done)+len(partial), len(done), g.configs, g.builds, g.evals, g.refused, g.allowed, g.skipped, len(g.outcomes), total, len(keys), exhaustive, time.Since(start).Seconds())
	fmt.Printf("C03 bound: %s\n", bound)

	os.Exit(code)
}

func describeBound(tier string, perPhase map[string][2]int) string {
	desc := map[string]string{
		"A": "A: depth<=2 + two-directory Rename/Link (onto a missing name: shapes x2/F, x2/D) + Rename/Link onto an existing file in the same directory (FF) and in ANOTHER directory (x2/FF: the attributes of the two directories independent - each {actor, other user, root} x 8 rwx values x {none, sticky}, so exactly one of them sticky, both, none - and the owners of the moved and of the replaced entry independent in {actor, other user, root}), 16-mode covering set (8 rwx values of the applicable class x other classes 000/777), owner in {actor, other user, root} x group in {own, other}, parent special in {none, sticky, setgid}, creating calls x 4 perms x 13 umasks = the usual {022, 000, 002, 027, 077} + the masks that take bits from the OWNER class {0100 .. 0700, 0777}, MkdirAll with 1, 2 and 3 missing levels under each (the mode just given to level k decides level k+1) and with 2 missing levels below an existing directory under umask 0300; no-op arguments: Truncate to the current length (file \"abc\" and shape E = empty file, also O_TRUNC opens and File.Truncate on it), Chmod to the current mode, Chown / Lchown to the current owner and group, Rename of a name onto itself (kernel asked with rename(2) directly), File.Truncate to the current length on a read-only handle, under every configuration of the shape; Chown / Lchown / File.Chown (file and directory handle) argument forms: one field, both fields acceptable, and both fields with exactly one acceptable on its own in both orders (user refused + group allowed, user allowed + group refused) or none, on nodes of the actor's own and of the other group; open-flag dimension (shapes Fo, Do, M): OpenFile with the full product access mode {RDONLY, WRONLY, RDWR} x {-, TRUNC} x {-, APPEND} x {-, CREATE, CREATE|EXCL} (36 flag sets) on an existing file (full leaf domain), an existing directory and a missing name, containing directories at the 8-value set without special bits",
		"B": "B: depth 3, grandparent 16 modes, parent and leaf 8 modes; creating calls, owner-class umasks, multi-level MkdirAll and no-op arguments as in A; the 36 open flag sets on file, directory and missing name at depth 3 (directories above at the 8-value set)",
		"C": "C: depth<=2, full covering set (32 modes, 6 owner/group pairs, special bits on every directory), all 9 chown argument forms on Chown, Lchown and File.Chown; creating calls x 4 perms x 13 umasks (owner-class masks included), MkdirAll with 1-3 missing levels and the no-op arguments (current length / mode / owner, Rename onto itself, empty file) as in A on the full covering set; the 36 open flag sets on a file with the full covering set (32 modes x 6 owner/group pairs), on a directory and on a missing name; two-directory Rename/Link onto an existing file (x2/FF+) with each directory {actor, other user, root} x 8 rwx values x {none, sticky, setgid} independently and the owners of the moved and the replaced entry independent in {actor, same-group user, root, actor with foreign group}",
		"D": "D: depth 3 for a user who owns nothing, grandparent 8 modes x special bits {none, sticky, setgid}, parent and leaf 8 modes; creating calls, owner-class umasks, multi-level MkdirAll and no-op arguments as in A; the 36 open flag sets at depth 3 for that user (directories without special bits)",
	}

	var ph []string
	for p := range perPhase {
		ph = append(ph, p)
	}

	sort.Strings(ph)

	var s []string

	for _, p := range ph {
		pp := perPhase[p]
		s = append(s, fmt.Sprintf("%s [%d/%d blocks complete]", desc[p], pp[0], pp[1]))
	}

	return tier + ": " + strings.Join(s, "; ")
}

var (
	procMu sync.Mutex
	procs  []*os.Process
)

// killWorkers stops every worker still running (harness error path); their
// scratch directories live under $VERIF_SCRATCH, which the caller removes.
func killWorkers() {
	procMu.Lock()
	defer procMu.Unlock()

	for _, p := range procs {
		_ = p.Kill()
	}
}

// driveWorker runs one worker subprocess and feeds it tasks.
func driveWorker(self, tier, scratch string, blocks []*block, feed <-chan chunk, g *global) error {
	cmd := exec.Command(self, "-c03worker", "-tier", tier)
	cmd.Env = append(os.Environ(), "VERIF_SCRATCH="+scratch, "GOMAXPROCS=2")
	cmd.Stderr = os.Stderr

	stdin, err := cmd.StdinPipe()
	if err != nil {
		return err
	}

	stdout, err := cmd.StdoutPipe()
	if err != nil {
		return err
	}

	if err := cmd.Start(); err != nil {
		return err
	}

	procMu.Lock()
	procs = append(procs, cmd.Process)
	procMu.Unlock()

	dec := json.NewDecoder(bufio.NewReaderSize(stdout, 1<<20))
	enc := json.NewEncoder(stdin)

	var hello map[string]string
	if err := dec.Decode(&hello); err != nil {
		_ = cmd.Wait()

		return fmt.Errorf("worker did not start (see its message above): %v", err)
	}

	crash := func(c chunk, err error) error {
		_ = stdin.Close()
		werr := cmd.Wait()
		rec, _ := os.ReadFile(hello["cur"])
		where := strings.TrimSpace(string(rec))

		var bi, idx, ci int
		if n, _ := fmt.Sscanf(where, "%d %d %d", &bi, &idx, &ci); n == 3 && bi < len(blocks) && ci < len(blocks[bi].Fam.Calls) {
			where = fmt.Sprintf("block %s configuration %d %v call %s", blocks[bi].name(), idx, blocks[bi].decode(idx), blocks[bi].Fam.Calls[ci].label())
		}

		_ = os.RemoveAll(filepath.Dir(hello["cur"]))

		return fmt.Errorf("worker died (%v, %v) while executing: %s", err, werr, where)
	}

	for c := range feed {
		if err := enc.Encode(c.task); err != nil {
			return crash(c, err)
		}

		var r reply
		if err := dec.Decode(&r); err != nil {
			return crash(c, err)
		}

		g.merge(c, r)

		if r.Err != "" {
			break
		}
	}

	_ = enc.Encode(task{Quit: true})
	_ = stdin.Close()

	return cmd.Wait()
}
