package main

// Credential switching for the kernel oracle. Only worker processes ever
// change credentials, and only on their main goroutine, which is locked to
// its OS thread for the life of the process (never unlocked: the thread dies
// with the process). The parent process never leaves fsuid 0.
//
// Decided by experiment in this sandbox (kernel 6.18, Go 1.23):
//   - setfsuid/setfsgid issued with RawSyscall are per-thread (another locked
//     thread keeps fsuid 0); a non-zero fsuid drops CAP_DAC_OVERRIDE,
//     CAP_FOWNER, CAP_CHOWN... from the effective set of that thread and
//     setfsuid(0) brings them back;
//   - unshare(CLONE_FS) on the locked thread gives it a private cwd and umask,
//     so Chdir and Umask on the kernel side cannot leak to runtime threads.
//
// Parallelism is by worker processes (one locked thread each): a fatal error
// in a worker cannot leave anything behind in the parent.

import (
	"fmt"
	"os"
	"path/filepath"
	"strings"
	"syscall"
)

func setfs(uid, gid int) {
	syscall.RawSyscall(syscall.SYS_SETFSGID, uintptr(gid), 0, 0)
	syscall.RawSyscall(syscall.SYS_SETFSUID, uintptr(uid), 0, 0)
}

func getfsuid() int {
	r, _, _ := syscall.RawSyscall(syscall.SYS_SETFSUID, ^uintptr(0), 0, 0)

	return int(int32(r))
}

func getfsgid() int {
	r, _, _ := syscall.RawSyscall(syscall.SYS_SETFSGID, ^uintptr(0), 0, 0)

	return int(int32(r))
}

// openScratch makes every ancestor of dir below /dev/shm (or below the first
// world-searchable ancestor) searchable: `check` creates its per-run
// directory with mktemp (0700), which would refuse every non-root actor
// before the tree under test is reached. Only directories of this run are
// touched.
func openScratch(dir string) error {
	for p := dir; p != "/" && p != "/dev/shm" && p != "/tmp" && p != "."; p = filepath.Dir(p) {
		fi, err := os.Stat(p)
		if err != nil {
			return err
		}

		if fi.Mode().Perm()&0o055 != 0o055 {
			if err := os.Chmod(p, fi.Mode().Perm()|0o055); err != nil {
				return err
			}
		}
	}

	return nil
}

// selfTest checks that the sandbox behaves as the oracle needs. It runs on the
// locked worker thread. Any failure is a harness error, never a verdict.
func selfTest(dir string) error {
	if os.Geteuid() != 0 {
		return fmt.Errorf("needs root (setfsuid, chown)")
	}

	var st syscall.Statfs_t
	if err := syscall.Statfs(dir, &st); err != nil {
		return err
	}

	if g, err := syscall.Getgroups(); err != nil || len(g) != 0 {
		return fmt.Errorf("supplementary groups not empty: %v %v", g, err)
	}

	t := filepath.Join(dir, "selftest")
	_ = os.RemoveAll(t)

	defer os.RemoveAll(t)

	if err := os.MkdirAll(filepath.Join(t, "priv"), 0o700); err != nil {
		return err
	}

	if err := os.Mkdir(filepath.Join(t, "open"), 0o777); err != nil {
		return err
	}

	_ = os.Chmod(filepath.Join(t, "open"), 0o777)
	_ = os.Chmod(t, 0o755)

	if err := os.WriteFile(filepath.Join(t, "priv", "f"), []byte("x"), 0); err != nil {
		return err
	}

	_ = os.Chmod(filepath.Join(t, "priv", "f"), 0)

	old := syscall.Umask(0o027)
	setfs(1001, 1001)

	_, e1 := os.ReadDir(filepath.Join(t, "priv"))
	e2 := os.WriteFile(filepath.Join(t, "open", "mine"), nil, 0o666)
	_, e3 := os.Lstat(filepath.Join(t, "open"))
	e4 := syscall.Chdir(filepath.Join(t, "open"))
	fu, fg := getfsuid(), getfsgid()

	setfs(0, 0)
	syscall.Umask(old)

	cwd, _ := os.Getwd() // process view: goes through the main thread or /proc; informative only
	_ = cwd

	if err := syscall.Chdir("/"); err != nil {
		return err
	}

	if fu != 1001 || fg != 1001 {
		return fmt.Errorf("setfsuid/setfsgid did not take effect: %d:%d", fu, fg)
	}

	if getfsuid() != 0 || getfsgid() != 0 {
		return fmt.Errorf("fsuid/fsgid not restored: %d:%d", getfsuid(), getfsgid())
	}

	if e1 == nil || !strings.Contains(e1.Error(), "permission denied") {
		return fmt.Errorf("fsuid 1001 could read a root-owned 0700 directory (err=%v): DAC not enforced for a switched fsuid", e1)
	}

	if e3 != nil {
		return fmt.Errorf("fsuid 1001 cannot reach the scratch directory %s: %v (an ancestor is not searchable)", t, e3)
	}

	if e2 != nil {
		return fmt.Errorf("fsuid 1001 cannot create in a 0777 directory: %v", e2)
	}

	if e4 != nil {
		return fmt.Errorf("chdir as fsuid 1001: %v", e4)
	}

	fi, err := os.Lstat(filepath.Join(t, "open", "mine"))
	if err != nil {
		return err
	}

	s := fi.Sys().(*syscall.Stat_t)
	if s.Uid != 1001 || s.Gid != 1001 || fi.Mode().Perm() != 0o640 {
		return fmt.Errorf("object created under fsuid 1001 umask 027 is %d:%d %04o, want 1001:1001 0640", s.Uid, s.Gid, fi.Mode().Perm())
	}

	// capabilities back: root reads a mode-0 file and lists the 0700 directory
	if _, err := os.ReadFile(filepath.Join(t, "priv", "f")); err != nil {
		return fmt.Errorf("CAP_DAC_OVERRIDE not restored after setfsuid(0): %v", err)
	}

	if err := os.Chown(filepath.Join(t, "priv", "f"), 1002, 1002); err != nil {
		return fmt.Errorf("CAP_CHOWN not restored after setfsuid(0): %v", err)
	}

	return nil
}

func sysctlInt(name string) int {
	b, err := os.ReadFile("/proc/sys/" + name)
	if err != nil {
		return -1
	}

	n := 0
	_, _ = fmt.Sscanf(strings.TrimSpace(string(b)), "%d", &n)

	return n
}

func fsTypeName(dir string) string {
	var st syscall.Statfs_t
	if err := syscall.Statfs(dir, &st); err != nil {
		return "?"
	}

	if st.Type == 0x01021994 {
		return "tmpfs"
	}

	return fmt.Sprintf("fs-magic-%#x", st.Type)
}
