package main

// -replay <file>: rebuild the configuration of a replay file and execute its
// call on both sides again. Exit 1 when the two sides still disagree.

import (
	"encoding/json"
	"fmt"
	"os"
	"runtime"
	"syscall"

	"github.com/avfs/avfs/verifrt"
)

func replayMain(file, scratch string) int {
	b, err := os.ReadFile(file)
	if err != nil {
		fmt.Fprintln(os.Stderr, "c03:", err)

		return 2
	}

	var doc struct {
		Signature map[string]string `json:"signature"`
		Replay    replay            `json:"replay"`
	}

	if err := json.Unmarshal(b, &doc); err != nil {
		fmt.Fprintln(os.Stderr, "c03:", err)

		return 2
	}

	rp := doc.Replay

	actor := -1

	for i, u := range users {
		if u.Uid == rp.Actor.Uid {
			actor = i
		}
	}

	if actor < 0 || rp.Call.Op == "" {
		fmt.Fprintln(os.Stderr, "c03: not a C03 replay file")

		return 2
	}

	runtime.LockOSThread()
	verifrt.SetMode(verifrt.ModeSeq)

	if err := syscall.Setgroups([]int{}); err != nil {
		fmt.Fprintln(os.Stderr, "c03: setgroups:", err)

		return 2
	}

	if err := syscall.Unshare(syscall.CLONE_FS); err != nil {
		fmt.Fprintln(os.Stderr, "c03: unshare:", err)

		return 2
	}

	w, err := newWorker(scratch, "quick")
	if err != nil {
		fmt.Fprintln(os.Stderr, "c03: harness precondition failed:", err)

		return 2
	}

	defer w.close()

	fam := &family{ID: rp.Family, Depth: rp.Depth, Leaf: rp.Leaf, LeafKind: rp.LeafKind}
	blk := &block{Fam: fam, Actor: actor}

	code := 0

	for round := 0; round < 5; round++ {
		w.dirty = true

		if err := w.build(rp.Nodes); err != nil {
			fmt.Fprintln(os.Stderr, "c03: harness error:", err)

			return 2
		}

		o, err := w.eval(blk, rp.Nodes, rp.Call)
		if err != nil {
			fmt.Fprintln(os.Stderr, "c03: harness error:", err)

			return 2
		}

		if round == 0 {
			for _, h := range historyStrings(rp.Nodes) {
				fmt.Println("  ", h)
			}

			fmt.Printf("as %s (%d:%d) umask %04o: %s\n", rp.Actor.Name, rp.Actor.Uid, rp.Actor.Gid, uint32(rp.Call.Umask), w.callText(rp.Call, o.args))
		}

		fmt.Printf("round %d: kernel=%s avfs=%s", round+1, o.rk, o.rv)

		if o.skipped {
			fmt.Printf(" (not compared: fs.protected_hardlinks policy)")
		}

		for _, v := range o.viols {
			fmt.Printf("\n   disagreement kind=%s attr=%s diff=%s", v.sig["kind"], v.sig["attr"], v.diff)
			code = 1
		}

		fmt.Println()
	}

	return code
}
